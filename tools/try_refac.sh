#!/bin/bash
# tools/try_refac.sh <PROP> <seed-dir> [more props...]
# A behaviour-preserving rewrite (seed-dir/patch.diff, equiv.py) must NOT raise an alarm: applies the patch to a
# scratch worktree of /repo, re-runs the author's differential test (clean vs patched), then runs ./check for the
# property (and any further ones named) against the patched copy.  Expected: exit 0, no VIOLATION line.
set -u
prop="$1"; seed="$(readlink -f "$2")"; shift 2
cd "$(dirname "$(readlink -f "$0")")/.."
d=/var/tmp/refacrun-$prop-$$
tools/scratch_repo.sh "$d" "$seed/patch.diff" >/dev/null || { echo "patch does not apply"; git -C /repo worktree remove --force "$d" 2>/dev/null; exit 2; }
if [ "${SKIP_EQUIV:-0}" != 1 ] && [ -f "$seed/equiv.py" ]; then
 echo "== equiv.py clean vs patched"; (cd /tmp && timeout 1800 /venv/bin/python "$seed/equiv.py" /repo/src "$d/src" 2>&1 | tail -2)
fi
for p in "$prop" "$@"; do
 echo "== ./check $p quick on patched copy (expected: exit 0)"; VERIF_REPO=$d ./check $p quick 2>&1 | grep -E 'VIOLATION|KNOWN|violation:|broken:|exit|FRAMEWORK' | cut -c1-400 | head -10
done
git -C /repo worktree remove --force "$d"
